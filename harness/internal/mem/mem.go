// Package mem provides an in-memory, buffered, fault-injectable net.Conn pair with distinct
// addresses, wire capture and per-Write records. Used to run real teleport peers in-process.
package mem

import (
	"fmt"
	"io"
	"net"
	"os"
	"sync"
	"sync/atomic"
	"time"
)

// Addr is a fake network address. Network is "tcp" so that teleport accepts the connection.
type Addr struct{ S string }

func (a Addr) Network() string { return "tcp" }
func (a Addr) String() string  { return a.S }

// half is one direction of the pipe.
type half struct {
	mu       sync.Mutex
	cond     *sync.Cond
	buf      []byte
	closed   bool   // writer closed: reader sees EOF after draining
	broken   error  // hard error for both reader and writer
	Wire     []byte // everything ever written (capture)
	Writes   []int  // length of every Write call
	cutAfter int64  // >=0: break the connection after this many more bytes
	onCut    func()
}

func newHalf() *half {
	h := &half{cutAfter: -1}
	h.cond = sync.NewCond(&h.mu)
	return h
}

// Conn is one end of the pair.
type Conn struct {
	rd, wr        *half
	local, remote Addr
	rdl           atomic.Value // time.Time read deadline
	wdl           atomic.Value // time.Time write deadline (sticky, like a real connection's)
	closeOnce     sync.Once
	peer          *Conn
	Closed        int32
	afterWrite    atomic.Value // func(): runs after the bytes of a Write are readable by the peer, before Write returns
}

// SetAfterWrite installs f to run inside every later Write of this end, after the written bytes have
// become readable by the other end and before Write returns to its caller (a slow-returning write:
// the peer may answer, and the answer may be processed, while the writer is still inside Write).
func (c *Conn) SetAfterWrite(f func()) { c.afterWrite.Store(f) }

var counter int64

// Pair returns two connected ends with unique addresses derived from name.
func Pair(name string) (*Conn, *Conn) {
	n := atomic.AddInt64(&counter, 1)
	a2b, b2a := newHalf(), newHalf()
	la := Addr{fmt.Sprintf("10.0.%d.%d:%d", (n>>8)&255, n&255, 10000+n%50000)}
	lb := Addr{fmt.Sprintf("10.1.%d.%d:%d", (n>>8)&255, n&255, 10000+n%50000)}
	if name != "" {
		la.S, lb.S = name+"-a:1", name+"-b:1"
	}
	a := &Conn{rd: b2a, wr: a2b, local: la, remote: lb}
	b := &Conn{rd: a2b, wr: b2a, local: lb, remote: la}
	a.peer, b.peer = b, a
	return a, b
}

// PairAddr is Pair with explicit addresses: a's local = b's remote = addrA, and vice versa.
func PairAddr(addrA, addrB string) (*Conn, *Conn) {
	a, b := Pair("")
	a.local, a.remote = Addr{addrA}, Addr{addrB}
	b.local, b.remote = Addr{addrB}, Addr{addrA}
	return a, b
}

func (c *Conn) Read(p []byte) (int, error) {
	h := c.rd
	h.mu.Lock()
	defer h.mu.Unlock()
	for {
		if len(h.buf) > 0 {
			n := copy(p, h.buf)
			h.buf = h.buf[n:]
			return n, nil
		}
		if h.broken != nil {
			return 0, h.broken
		}
		if h.closed || atomic.LoadInt32(&c.Closed) == 1 {
			return 0, io.EOF
		}
		if len(p) == 0 {
			return 0, nil
		}
		if d, ok := c.rdl.Load().(time.Time); ok && !d.IsZero() {
			now := time.Now()
			if !now.Before(d) {
				return 0, os.ErrDeadlineExceeded
			}
			t := time.AfterFunc(d.Sub(now), func() { h.mu.Lock(); h.cond.Broadcast(); h.mu.Unlock() })
			h.cond.Wait()
			t.Stop()
			continue
		}
		h.cond.Wait()
	}
}

func (c *Conn) Write(p []byte) (int, error) {
	if d, _ := c.wdl.Load().(time.Time); !d.IsZero() && !time.Now().Before(d) {
		return 0, timeoutError{}
	}
	h := c.wr
	h.mu.Lock()
	if h.broken != nil {
		h.mu.Unlock()
		return 0, h.broken
	}
	if h.closed || atomic.LoadInt32(&c.Closed) == 1 {
		h.mu.Unlock()
		return 0, io.ErrClosedPipe
	}
	n := len(p)
	cut := false
	if h.cutAfter >= 0 {
		if int64(n) >= h.cutAfter {
			n = int(h.cutAfter)
			cut = true
		}
		h.cutAfter -= int64(n)
	}
	h.buf = append(h.buf, p[:n]...)
	h.Wire = append(h.Wire, p[:n]...)
	h.Writes = append(h.Writes, len(p))
	h.cond.Broadcast()
	onCut := h.onCut
	h.mu.Unlock()
	if cut {
		c.Break(io.ErrUnexpectedEOF)
		if onCut != nil {
			onCut()
		}
		return n, io.ErrClosedPipe
	}
	if f, _ := c.afterWrite.Load().(func()); f != nil {
		f()
	}
	return n, nil
}

// Break severs both directions: pending data written before the cut is still delivered to readers
// of the *other* end only up to what was buffered; then both ends see EOF / errors.
func (c *Conn) Break(err error) {
	for _, h := range []*half{c.rd, c.wr} {
		h.mu.Lock()
		h.closed = true
		h.cond.Broadcast()
		h.mu.Unlock()
	}
}

// CutAfter arranges that after n more bytes written by this end the connection breaks.
func (c *Conn) CutAfter(n int64, onCut func()) {
	c.wr.mu.Lock()
	c.wr.cutAfter = n
	c.wr.onCut = onCut
	c.wr.mu.Unlock()
}

func (c *Conn) Close() error {
	c.closeOnce.Do(func() {
		atomic.StoreInt32(&c.Closed, 1)
		c.wr.mu.Lock()
		c.wr.closed = true
		c.wr.cond.Broadcast()
		c.wr.mu.Unlock()
		c.rd.mu.Lock()
		c.rd.cond.Broadcast()
		c.rd.mu.Unlock()
	})
	return nil
}

func (c *Conn) LocalAddr() net.Addr  { return c.local }
func (c *Conn) RemoteAddr() net.Addr { return c.remote }
func (c *Conn) SetDeadline(t time.Time) error {
	c.SetReadDeadline(t)
	c.SetWriteDeadline(t)
	return nil
}
func (c *Conn) SetReadDeadline(t time.Time) error {
	c.rdl.Store(t)
	c.rd.mu.Lock()
	c.rd.cond.Broadcast()
	c.rd.mu.Unlock()
	return nil
}
// SetWriteDeadline behaves like a real connection's: the deadline is sticky (it stays in force for
// every later Write until it is set again; the zero time clears it) and a Write that starts after
// it fails with a timeout error without writing anything.
func (c *Conn) SetWriteDeadline(t time.Time) error { c.wdl.Store(t); return nil }

type timeoutError struct{}

func (timeoutError) Error() string   { return "i/o timeout" }
func (timeoutError) Timeout() bool   { return true }
func (timeoutError) Temporary() bool { return true }

// Sent returns a copy of everything this end has written so far, and the Write call lengths.
func (c *Conn) Sent() ([]byte, []int) {
	c.wr.mu.Lock()
	defer c.wr.mu.Unlock()
	return append([]byte(nil), c.wr.Wire...), append([]int(nil), c.wr.Writes...)
}

// Listener is an in-memory net.Listener fed by Dial.
type Listener struct {
	addr   Addr
	ch     chan net.Conn
	closed chan struct{}
	once   sync.Once
	Refuse int32 // >0: refuse that many next dials
}

func NewListener(addr string) *Listener {
	return &Listener{addr: Addr{addr}, ch: make(chan net.Conn, 64), closed: make(chan struct{})}
}

func (l *Listener) Accept() (net.Conn, error) {
	select {
	case c := <-l.ch:
		return c, nil
	case <-l.closed:
		return nil, io.EOF
	}
}
func (l *Listener) Close() error   { l.once.Do(func() { close(l.closed) }); return nil }
func (l *Listener) Addr() net.Addr { return l.addr }

// Dial connects to the listener and returns the client end.
func (l *Listener) Dial() (*Conn, error) {
	if atomic.LoadInt32(&l.Refuse) > 0 {
		atomic.AddInt32(&l.Refuse, -1)
		return nil, fmt.Errorf("connection refused")
	}
	a, b := Pair("")
	select {
	case l.ch <- b:
		return a, nil
	case <-l.closed:
		return nil, fmt.Errorf("connection refused")
	}
}
