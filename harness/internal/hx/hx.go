// Package hx holds the small shared helpers of the conformance harness:
// a single seeded PRNG, hex helpers, the case/observation writers and run statistics.
package hx

import (
	"bufio"
	"encoding/hex"
	"encoding/json"
	"fmt"
	"math/rand"
	"os"
	"sort"
	"strings"
)

// R is the only source of randomness; seeded from VERIF_SEED by the caller.
type R struct{ *rand.Rand }

func NewR(seed int64) *R { return &R{rand.New(rand.NewSource(seed))} }

// Pick returns one of the given ints.
func (r *R) Pick(xs ...int) int { return xs[r.Intn(len(xs))] }

// Bytes returns n bytes drawn from the given alphabet class.
// class 0: all byte values; 1: printable ascii; 2: "nasty" (%, +, &, =, 0xff, space, hex digits).
func (r *R) Bytes(n int, class int) []byte {
	b := make([]byte, n)
	nasty := []byte("%+&= \xff\x00aF9%%")
	for i := range b {
		switch class {
		case 0:
			b[i] = byte(r.Intn(256))
		case 1:
			b[i] = byte(32 + r.Intn(95))
		default:
			b[i] = nasty[r.Intn(len(nasty))]
		}
	}
	return b
}

// AnyBytes picks a class and produces n bytes.
func (r *R) AnyBytes(n int) []byte { return r.Bytes(n, r.Intn(3)) }

func Hex(b []byte) string {
	if len(b) == 0 {
		return "-"
	}
	return hex.EncodeToString(b)
}

func UnHex(s string) []byte {
	if s == "-" {
		return nil
	}
	b, err := hex.DecodeString(s)
	if err != nil {
		panic("bad hex in case: " + s)
	}
	return b
}

// KVs renders an ordered list of pairs as k:v,k:v (hex halves).
func KVs(kv [][2][]byte) string {
	if len(kv) == 0 {
		return "-"
	}
	parts := make([]string, len(kv))
	for i, p := range kv {
		parts[i] = Hex(p[0]) + ":" + Hex(p[1])
	}
	return strings.Join(parts, ",")
}

func ParseKVs(s string) [][2][]byte {
	if s == "-" {
		return nil
	}
	var out [][2][]byte
	for _, p := range strings.Split(s, ",") {
		h := strings.Split(p, ":")
		out = append(out, [2][]byte{UnHex(h[0]), UnHex(h[1])})
	}
	return out
}

// Fields parses "kind k=v k=v".
func Fields(line string) (string, map[string]string) {
	toks := strings.Fields(line)
	m := map[string]string{}
	if len(toks) == 0 {
		return "", m
	}
	for _, t := range toks[1:] {
		if i := strings.IndexByte(t, '='); i > 0 {
			m[t[:i]] = t[i+1:]
		}
	}
	return toks[0], m
}

// Out collects cases, implementation observations, oracle failures and statistics.
type Out struct {
	cases, obs *bufio.Writer
	cf, of     *os.File
	N          int
	Hist       map[string]int
	Samples    []string
	distinct   map[string]bool
	Nontrivial int
	Viol       []Violation
	Extra      map[string]interface{}
}

// Violation is a failure of the property's own oracle on the real code.
type Violation struct {
	Case   int    `json:"case"`
	Line   string `json:"line"`
	Oracle string `json:"oracle"`
	Detail string `json:"detail"`
	Sig    string `json:"sig"`
}

func NewOut(casePath, obsPath string) *Out {
	cf, err := os.Create(casePath)
	if err != nil {
		panic(err)
	}
	of, err := os.Create(obsPath)
	if err != nil {
		panic(err)
	}
	return &Out{cases: bufio.NewWriterSize(cf, 1<<20), obs: bufio.NewWriterSize(of, 1<<20), cf: cf, of: of,
		Hist: map[string]int{}, distinct: map[string]bool{}, Extra: map[string]interface{}{}}
}

// Emit records one case line and the implementation's observation for it.
// nontrivial says whether the case counts as non-trivial by the property's stated rule.
func (o *Out) Emit(caseLine, obsLine string, nontrivial bool) {
	fmt.Fprintln(o.cases, caseLine)
	fmt.Fprintln(o.obs, obsLine)
	o.N++
	if !o.distinct[caseLine] {
		o.distinct[caseLine] = true
		if nontrivial {
			o.Nontrivial++
		}
	}
	if len(o.Samples) < 5 || (o.N%997 == 0 && len(o.Samples) < 12) {
		s := caseLine
		if len(s) > 400 {
			s = s[:400] + "..."
		}
		o.Samples = append(o.Samples, s)
	}
}

func (o *Out) Count(key string) { o.Hist[key]++ }

func (o *Out) Violate(caseLine, oracle, detail, sig string) {
	o.Viol = append(o.Viol, Violation{Case: o.N, Line: caseLine, Oracle: oracle, Detail: detail, Sig: sig})
}

// Close flushes and writes the statistics file.
func (o *Out) Close(statsPath string) {
	o.cases.Flush()
	o.obs.Flush()
	o.cf.Close()
	o.of.Close()
	keys := make([]string, 0, len(o.Hist))
	for k := range o.Hist {
		keys = append(keys, k)
	}
	sort.Strings(keys)
	st := map[string]interface{}{
		"evaluations":         o.N,
		"distinct":            len(o.distinct),
		"distinct_nontrivial": o.Nontrivial,
		"histogram":           o.Hist,
		"samples":             o.Samples,
		"oracle_violations":   o.Viol,
		"extra":               o.Extra,
	}
	b, _ := json.MarshalIndent(st, "", " ")
	if err := os.WriteFile(statsPath, b, 0o644); err != nil {
		panic(err)
	}
}
